"""Shared access to the real legaliser `Model` (tools/legalfloor) without solving — used by C09 and C20.

`Built` builds the `Model(...)` for a netlist (YAML text) + die + ratio limit exactly as `legalfloor.main`
does up to the first solve, remembers the global slack tree it installs (then leaves the slack at 0; `set_slack`
re-installs it or any constant) and lists every `Equation` that carries a legality condition.  `build_digest` returns a canonical, JSON-serialisable digest of that constraint system.
GEKKO scratch directories created on the way are removed (only the ones created here).
"""
from __future__ import annotations

import contextlib
import io
import shutil

import gekko as _gk

from vcheck import f2hex
from frame.netlist.netlist import Netlist
from frame.geometry.geometry import Rectangle
from tools.legalfloor import legalfloor as lf, expression_tree as et, model as lm
from tools.legalfloor.expression_tree import NodeType

LOC = {"TRUNK": "T", "NORTH": "N", "SOUTH": "S", "EAST": "E", "WEST": "W", "NO_POLYGON": "X"}

_made: list[str] = []


class _RecGEKKO(_gk.GEKKO):
    """GEKKO that remembers its scratch directory (removed after each instance)."""

    def __init__(self, *a, **k):
        super().__init__(*a, **k)
        _made.append(self._path)


lf.GEKKO = lm.GEKKO = _RecGEKKO


def cleanup():
    while _made:
        shutil.rmtree(_made.pop(), ignore_errors=True)


# ----------------------------------------------------------------------------- implementation side
class Built:
    """the real Model for a YAML netlist + die + ratio, its equations and variables."""

    def __init__(self, yaml: str, dw: float, dh: float, r: float, reset_epsilon: bool = True):
        if reset_epsilon:
            Rectangle.undefine_epsilon()
        self.netlist = Netlist(yaml)
        self.dw, self.dh, self.r = dw, dh, r
        self.inmods = []
        for m in self.netlist.modules:
            rs = [(r_.center.x, r_.center.y, r_.shape.w, r_.shape.h, LOC[r_.location.name]) for r_ in m.rectangles]
            self.inmods.append({"hard": bool(m.is_hard), "fixed": bool(m.is_fixed), "area": m.area(), "rects": rs})
        self.utils = lf.netlist_to_utils(self.netlist)
        ml, al, xl, yl, wl, hl, hyper, names = self.utils
        buf = io.StringIO()
        with contextlib.redirect_stdout(buf):
            self.model = lf.Model(ml, al, xl, yl, wl, hl, dw, dh, hyper, r, names, 0.9, 0.3, 1)
        # the process-wide slack tree Model(...) installed (temperature_ini * decay ** time, 0.27 at build time)
        self.real_eps_tree = et.epsilon
        self.real_eps = float(et.get_epsilon())
        et.set_epsilon(et.ExpressionTree(self.model.gekko.gekko, 0.0))
        self.eqs: list[tuple[str, object]] = []
        for mac in self.model.gekko.macros:
            self.eqs += list(mac.get_constraints(self.model.gekko))
        for g in ("Area", "Inter", "Fix"):
            self.eqs += [(g, e) for e in self.model.gekko.constraints.get(g, [])]
        self.other_groups = {g: len(v) for g, v in self.model.gekko.constraints.items() if g not in ("Area", "Inter", "Fix")}

    def set_slack(self, raw) -> float:
        """install the global slack: `None` = the tree Model(...) itself installed, else a constant tree of plain
        value `raw` (what `epsilon.evaluate()` then reports is `raw`, or 0.0 when raw < 1e-6).  Returns the plain value."""
        if raw is None:
            et.set_epsilon(self.real_eps_tree)
            return self.real_eps
        et.set_epsilon(et.ExpressionTree(self.model.gekko.gekko, float(raw)))
        return float(raw)

    def var_bounds(self):
        out = set()
        for ws, hs in zip(self.model.w, self.model.h):
            for t in ws + hs:
                out.add((t.data["lb"], ))
        return sorted(x[0] for x in out)

    def assign(self, cfg) -> None:
        M = self.model
        for m, boxes in enumerate(cfg):
            for i, (x, y, w, h) in enumerate(boxes):
                M.x[m][i].assign(float(x))
                M.y[m][i].assign(float(y))
                M.w[m][i].assign(float(w))
                M.h[m][i].assign(float(h))

    def observe(self):
        out = []
        for g, e in self.eqs:
            try:
                out.append((float(e.lhs.evaluate()), float(e.rhs.evaluate()), bool(e.is_equation_met())))
            except Exception as ex:  # noqa: BLE001
                out.append(("err:" + type(ex).__name__,))
        return out


def ser_tree(t) -> str:
    ty = t.type
    if ty == NodeType.CST:
        return "c:" + f2hex(t.value)
    if ty == NodeType.VAR:
        return "v:" + t.data["name"]
    if ty == NodeType.SRT:
        return "s " + ser_tree(t.value[0])
    sym = {NodeType.ADD: "+", NodeType.SUB: "-", NodeType.MUL: "*", NodeType.DIV: "/", NodeType.EXP: "^"}[ty]
    return sym + " " + ser_tree(t.value[0]) + " " + ser_tree(t.value[1])


def ser_eq(g, e) -> str:
    return "%s|%s|%s|%d|%s|%s" % (g, e.name, e.cmp.name, int(bool(e.hard)), ser_tree(e.lhs), ser_tree(e.rhs))


def ser_utils(u) -> str:
    ml, al, xl, yl, wl, hl, _, _ = u

    def box(b):
        return " ".join(f2hex(v) for v in b)

    def boxes(bs):
        return str(len(bs)) + "".join(" " + box(b) for b in bs)

    def mat(t):
        return "{" + " ".join("%d:{%s}" % (k, " ".join("%d:%s" % (i, f2hex(x)) for i, x in d.items())) for k, d in t.items()) + "}"

    return ("ml " + " | ".join("%s N %s S %s E %s W %s" % (box(b[0]), boxes(b[1]), boxes(b[2]), boxes(b[3]), boxes(b[4])) for b in ml)
            + " ; al " + " ".join(f2hex(a) for a in al)
            + " ; xl " + mat(xl) + " ; yl " + mat(yl) + " ; wl " + mat(wl) + " ; hl " + mat(hl))


# ----------------------------------------------------------------------------- declarations, caps, flags (C09 round e)
def _num(v, none=float("nan")) -> float:
    """plain number of a GEKKO attribute (int / float / GK_Value / [x]); `none` for a missing bound."""
    if v is None:
        return none
    for _ in range(4):
        if isinstance(v, (int, float)):
            return float(v)
        if hasattr(v, "value"):
            v = v.value
            continue
        if isinstance(v, (list, tuple)):
            v = v[0]
            continue
        break
    return float(v)


def decl_views(B: "Built"):
    """three views of every variable `Model(...)` declared, in creation order (time, then per module / rectangle x, y, w, h):
      tree  : ExpressionTree.data (name, lb, ub) + current value       — what `set_gekko` re-creates variables from
      gkvar : the GKVariable attached to the tree (name, LOWER, UPPER, VALUE)
    and `gekko`: {name: (LOWER, UPPER, VALUE)} of the GEKKO object the next solve would use (auto-named aux variables listed apart)."""
    M = B.model
    trees = [M.time]
    for m in range(len(M.M)):
        for i in range(len(M.x[m])):
            trees += [M.x[m][i], M.y[m][i], M.w[m][i], M.h[m][i]]
    tree, gkvar = [], []
    for t in trees:
        tree.append((t.data["name"], float(t.evaluate()), float(t.data["lb"]), float(t.data["ub"])))
        g = t.value
        gkvar.append((str(g.name), _num(g.VALUE), _num(g.LOWER, float("-inf")), _num(g.UPPER, float("inf"))))
    gek, aux = {}, 0
    import re
    for g in M.gekko.gekko._variables:
        nm = str(g.name)
        if re.fullmatch(r"(int_)?[pv]\d+", nm):
            aux += 1
            continue
        gek[nm] = (_num(g.VALUE), _num(g.LOWER, float("-inf")), _num(g.UPPER, float("inf")))
    return tree, gkvar, gek, aux


def ser_decl(name, value, lb, ub) -> str:
    return "%s|%s|%s|%s" % (name, f2hex(value), f2hex(lb), f2hex(ub))


def real_bounds(B: "Built"):
    """[(module, rect, kind, LOWER, UPPER)] from the real GKVariables (the bounds the solver would see)."""
    M = B.model
    out = []
    for m in range(len(M.M)):
        for i in range(len(M.x[m])):
            for k, arr in (("x", M.x), ("y", M.y), ("w", M.w), ("h", M.h)):
                g = arr[m][i].value
                out.append((m, i, k, _num(g.LOWER, float("-inf")), _num(g.UPPER, float("inf"))))
    return out


def step_eqs(B: "Built"):
    return [("radius", e) for e in B.model.gekko.constraints.get("radius", [])]


def enforce_flags(B: "Built"):
    return [bool(e.enforce) for e in B.model.gekko.constraints.get("Inter", [])]


def rid_view(B: "Built", cfg, perc: float):
    """assign `cfg`, run `turn_off_rects(perc)` on every macro from an all-enabled state, then `get_constraints`:
    returns (flags per module, configuration read back, serialised equations).  The enable flags are restored."""
    M = B.model
    B.assign(cfg)
    saved = [list(mac.enable) for mac in M.gekko.macros]
    try:
        for mac in M.gekko.macros:
            mac.enable = [True] * len(mac.enable)
            mac.turn_off_rects(perc)
        flags = [list(map(bool, mac.enable)) for mac in M.gekko.macros]
        eqs = []
        for mac in M.gekko.macros:
            eqs += [ser_eq(g, e) for g, e in mac.get_constraints(M.gekko)]
        back = [[(float(M.x[m][i].evaluate()), float(M.y[m][i].evaluate()), float(M.w[m][i].evaluate()), float(M.h[m][i].evaluate()))
                 for i in range(len(M.x[m]))] for m in range(len(M.M))]
        return flags, back, eqs
    finally:
        for mac, en in zip(M.gekko.macros, saved):
            mac.enable = en


def build_digest(d: dict) -> list:
    """canonical digest of the constraint system `Model(...)` builds (no solve) for
    d["netlist"] (YAML text), die d["W"] x d["H"], ratio limit d.get("max_ratio", 2.0).
    Global state (Rectangle epsilon, expression_tree.epsilon, …) is deliberately NOT reset first, so that a
    dependence on history shows up as a different digest.  Returns
    ["utils " + tables, "other-groups " + …, eq_1, eq_2, …] with the equations (group|name|cmp|hard|lhs|rhs,
    prefix trees, constants as hex doubles) sorted."""
    try:
        b = Built(d["netlist"], float(d["W"]), float(d["H"]), float(d.get("max_ratio", 2.0)), reset_epsilon=False)
        eqs = sorted(ser_eq(g, e) for g, e in b.eqs)
        return ["utils " + ser_utils(b.utils), "other-groups " + repr(sorted(b.other_groups.items()))] + eqs
    finally:
        cleanup()

"""Shared helpers: building FRAME rectangles, wire format, generators of coordinates."""
from __future__ import annotations

from fractions import Fraction
from typing import Any

from vcheck import f2hex, hex2f, q2s, s2q

from frame.geometry.geometry import Rectangle, Point, Shape

LOC = {"TRUNK": "T", "NORTH": "N", "SOUTH": "S", "EAST": "E", "WEST": "W", "NO_POLYGON": "X"}


def mk_rect(cx, cy, w, h, region="_", fixed=False, hard=False) -> Rectangle:
    kw: dict[str, Any] = dict(center=Point(cx, cy), shape=Shape(w, h), fixed=fixed, hard=hard)
    if region != "_":
        # a FRESH str object per rectangle (as a YAML reader hands them out): equal region names must be compared by
        # value, never by identity (seeded C18-e2)
        kw["region"] = "".join(list(region))
    return Rectangle(**kw)


def sc(x, mode: str) -> str:
    return f2hex(x) if mode == "F" else q2s(Fraction(x))


def unsc(s: str, mode: str):
    return hex2f(s) if mode == "F" else s2q(s)


def rect_in(r: Rectangle, mode: str) -> str:
    """rectangle as driver input tokens."""
    return f"{sc(r.center.x, mode)} {sc(r.center.y, mode)} {sc(r.shape.w, mode)} {sc(r.shape.h, mode)} " \
           f"{r.region} {int(r.fixed)} {int(r.hard)}"


def rect_out(r: Rectangle, mode: str) -> str:
    """rectangle in the driver's output format (adds the STOG location)."""
    return rect_in(r, mode) + " " + LOC[r.location.name]


def rects_out(rs, mode: str) -> str:
    return str(len(rs)) + "".join(" | " + rect_out(r, mode) for r in rs)


def parse_rect_out(tokens: list[str], mode: str) -> dict:
    return {"cx": unsc(tokens[0], mode), "cy": unsc(tokens[1], mode), "w": unsc(tokens[2], mode),
            "h": unsc(tokens[3], mode), "region": tokens[4], "fixed": tokens[5] == "1", "hard": tokens[6] == "1",
            "loc": tokens[7]}


def rect_dict(r: Rectangle) -> dict:
    return {"cx": r.center.x, "cy": r.center.y, "w": r.shape.w, "h": r.shape.h, "region": r.region,
            "fixed": r.fixed, "hard": r.hard, "loc": LOC[r.location.name]}


def bb(r: dict | Rectangle):
    """exact bounding box (Fractions) of a rectangle given as dict or Rectangle."""
    if isinstance(r, Rectangle):
        r = rect_dict(r)
    cx, cy, w, h = (Fraction(r[k]) for k in ("cx", "cy", "w", "h"))
    return cx - w / 2, cy - h / 2, cx + w / 2, cy + h / 2


def exact_overlap(a, b) -> Fraction:
    ax0, ay0, ax1, ay1 = bb(a)
    bx0, by0, bx1, by1 = bb(b)
    dx = min(ax1, bx1) - max(ax0, bx0)
    dy = min(ay1, by1) - max(ay0, by0)
    return dx * dy if dx > 0 and dy > 0 else Fraction(0)


# coordinate families -------------------------------------------------------------------------
def coord(rng, family: str, lo=0, hi=8):
    """a coordinate from one of the families of DESIGN §5."""
    if family == "int":
        return float(rng.randint(lo, hi))
    if family == "half":
        return rng.randint(2 * lo, 2 * hi) / 2
    if family == "dyadic":
        return rng.randint(8 * lo, 8 * hi) / 8
    if family == "dec":
        return rng.randint(10 * lo, 10 * hi) / 10
    if family == "third":
        return rng.randint(3 * lo, 3 * hi) / 3
    if family == "float":
        return rng.uniform(lo, hi)
    raise ValueError(family)


EXACT_FAMILIES = ["int", "half", "dyadic"]
FLOAT_FAMILIES = ["dec", "third", "float", "dec", "half"]


def rand_rect(rng, family: str, regions=("_", "_", "_", "dsp", "bram"), lo=0, hi=8) -> Rectangle:
    while True:
        x0, x1 = coord(rng, family, lo, hi), coord(rng, family, lo, hi)
        y0, y1 = coord(rng, family, lo, hi), coord(rng, family, lo, hi)
        if x0 > x1:
            x0, x1 = x1, x0
        if y0 > y1:
            y0, y1 = y1, y0
        if x1 - x0 > 0 and y1 - y0 > 0:
            break
    fixed = rng.random() < 0.2
    hard = fixed or rng.random() < 0.2
    # centre/shape from corners; for exact families all operations are exact in binary
    return mk_rect((x0 + x1) / 2, (y0 + y1) / 2, x1 - x0, y1 - y0, rng.choice(regions), fixed, hard)
